"""pyimp — a fail-closed translator from a small imperative subset of Python (methods of one class that read and
write integer / enum / float attributes of `self`, with if/elif/else, early returns, `with self._lock`, min/max,
calls of other translated methods) to Gallina functions  state -> args -> state * ret.

The output is re-generated from /repo's working tree on every run; `GenOk.v` files prove that the generated
functions coincide with the hand-written model, so the property theorems are re-checked against what the code
says now.  Anything outside the subset raises `Unsupported` (with the source line), which the driver reports as a
failed obligation: nothing is ever skipped silently, except what the configuration explicitly declares to be
  * audit attributes  (written, never read by translated code; a read is an error),
  * audit methods     (checked to touch audit attributes only),
  * callbacks         (environment: assumed not to re-enter the object),
  * print statements.

Control flow: a statement list is translated with its continuation duplicated into both arms of every `if`
that can fall through, so early returns and assignments inside branches need no special treatment.
"""
from __future__ import annotations

import ast
import dataclasses


class Unsupported(Exception):
    pass


@dataclasses.dataclass
class Config:
    cls: str
    state_type: str                    # name of the generated record
    prefix: str                        # prefix of generated projections / setters / functions
    fields: dict                       # python attribute -> (coq field name, type)   type in {"Z","bool","float",<enum type>}
    audit_attrs: set                   # attributes that may be written but never read
    audit_methods: set                 # methods that touch audit attributes only (calls are dropped)
    callbacks: set                     # attributes holding environment callbacks
    lock_attrs: set                    # `with self.<lock>` is transparent
    enums: dict                        # python enum class -> (coq type, {member: constructor})
    methods: dict                      # python method -> kind: "fun" (state * ret) | "proc" (state)
    ret_ctor: dict                     # type -> constructor of the model's `ret`  {"bool": "RBool", "Z": "RInt", "unit": "RUnit"}
    other_param: str | None = None     # name of a parameter that is another instance of the class
    header: str = ""
    config_attrs: set = dataclasses.field(default_factory=set)   # attributes read only in dropped code (e.g. silent)
    clock: str | None = None           # e.g. "datetime.now": calls of it read the parameter (now : Z) every method gets


class Translator:
    def __init__(self, cfg: Config, src: str):
        self.cfg = cfg
        self.tree = ast.parse(src)
        self.cls = next(n for n in self.tree.body if isinstance(n, ast.ClassDef) and n.name == cfg.cls)
        self.meths = {n.name: n for n in self.cls.body if isinstance(n, ast.FunctionDef)}
        self.consts = {}
        for n in self.cls.body:
            if isinstance(n, ast.Assign) and len(n.targets) == 1 and isinstance(n.targets[0], ast.Name) \
                    and isinstance(n.value, ast.Constant):
                self.consts[n.targets[0].id] = n.value.value
        self.sigs = {}      # method -> [(param, type)]
        self.rets = {}      # method -> ret type
        self.alias = False  # translating with other == self

    # ------------------------------------------------------------------ helpers
    def bad(self, node, why):
        raise Unsupported(f"line {getattr(node, 'lineno', '?')}: {why}: {ast.unparse(node)[:80]}")

    def ann_type(self, a):
        if a is None:
            return None
        if isinstance(a, ast.Name):
            if a.id == "int":
                return "Z"
            if a.id == "bool":
                return "bool"
            if a.id == "float":
                return "float"
            if a.id == "str":
                return "str"
            if a.id in self.cfg.enums:
                return self.cfg.enums[a.id][0]
        if isinstance(a, ast.Constant) and a.value == self.cfg.cls:
            return "other"
        if isinstance(a, ast.Constant) and a.value is None:
            return "unit"
        self.bad(a, "unsupported annotation")

    @staticmethod
    def flt(x: float) -> str:
        return f"({float(x).hex()})%float"

    def field(self, attr):
        return self.cfg.fields[attr]

    # ------------------------------------------------------------------ expressions
    def ex(self, n, env, sv="s"):
        """-> (coq text, type)"""
        c = self.cfg
        if isinstance(n, ast.Constant):
            if isinstance(n.value, bool):
                return ("true" if n.value else "false"), "bool"
            if isinstance(n.value, int):
                return f"({n.value})", "Z"
            if isinstance(n.value, float):
                return self.flt(n.value), "float"
            if n.value is None:
                return "tt", "unit"
            self.bad(n, "constant")
        if isinstance(n, ast.Name):
            if n.id in env:
                if env[n.id] == "str":
                    self.bad(n, "string parameter used in translated code")
                return n.id, env[n.id]
            self.bad(n, "unknown name")
        if isinstance(n, ast.Attribute):
            if isinstance(n.value, ast.Name) and n.value.id == "self":
                if ("unwrapped", n.attr) in env:
                    return env[("unwrapped", n.attr)], "Z"
                if n.attr in c.fields:
                    f, t = c.fields[n.attr]
                    return f"({c.prefix}{f} {sv})", t
                if n.attr in self.consts:
                    v = self.consts[n.attr]
                    if isinstance(v, float):
                        return self.flt(v), "float"
                    if isinstance(v, int) and not isinstance(v, bool):
                        return f"({v})", "Z"
                self.bad(n, "read of an attribute that is not modelled")
            if isinstance(n.value, ast.Name) and n.value.id in c.enums:
                ty, members = c.enums[n.value.id]
                if n.attr in members:
                    return members[n.attr], ty
            self.bad(n, "attribute")
        if isinstance(n, ast.UnaryOp):
            a, t = self.ex(n.operand, env, sv)
            if isinstance(n.op, ast.Not) and t == "bool":
                return f"(negb {a})", "bool"
            if isinstance(n.op, ast.USub) and t == "Z":
                return f"(- {a})", "Z"
            if isinstance(n.op, ast.USub) and t == "float":
                return f"(- {a})%float", "float"
            self.bad(n, "unary operator")
        if isinstance(n, ast.BoolOp) and isinstance(n.op, ast.And) and len(n.values) >= 2 \
                and isinstance(n.values[0], ast.Attribute) and isinstance(n.values[0].value, ast.Name) \
                and n.values[0].value.id == "self" and c.fields.get(n.values[0].attr, (None, None))[1] == "optZ":
            # `self.x and <expr using self.x>` where x is None or a number-like object that is always truthy
            # (a datetime): match on the option and read the bound value inside
            attr = n.values[0].attr
            f, _ = c.fields[attr]
            var = f"{f}_v"
            env2 = dict(env)
            env2[("unwrapped", attr)] = var
            rest = ast.BoolOp(op=ast.And(), values=n.values[1:]) if len(n.values) > 2 else n.values[1]
            r, t = self.ex(rest, env2, sv)
            if t != "bool":
                self.bad(n, "and over non-booleans")
            return f"(match {c.prefix}{f} {sv} with Some {var} => {r} | None => false end)", "bool"
        if isinstance(n, ast.BoolOp):
            parts = [self.ex(v, env, sv) for v in n.values]
            if any(t != "bool" for _, t in parts):
                self.bad(n, "and/or over non-booleans")
            op = " && " if isinstance(n.op, ast.And) else " || "
            out = parts[0][0]
            for p, _ in parts[1:]:
                out = f"({out}{op}{p})"
            return out, "bool"
        if isinstance(n, ast.Compare):
            if len(n.ops) != 1:
                self.bad(n, "chained comparison")
            a, ta = self.ex(n.left, env, sv)
            b, tb = self.ex(n.comparators[0], env, sv)
            op = n.ops[0]
            if ta == "Z" and tb == "Z":
                tab = {ast.Eq: f"({a} =? {b})", ast.NotEq: f"(negb ({a} =? {b}))", ast.Lt: f"({a} <? {b})",
                       ast.LtE: f"({a} <=? {b})", ast.Gt: f"({b} <? {a})", ast.GtE: f"({b} <=? {a})"}
            elif "float" in (ta, tb) and {ta, tb} <= {"float", "Z"}:
                a2 = a if ta == "float" else f"(f_of_Z {a})"
                b2 = b if tb == "float" else f"(f_of_Z {b})"
                tab = {ast.Lt: f"({a2} <? {b2})%float", ast.LtE: f"({a2} <=? {b2})%float",
                       ast.Gt: f"({b2} <? {a2})%float", ast.GtE: f"({b2} <=? {a2})%float"}
            elif ta == tb and any(ta == ty for ty, _ in c.enums.values()):
                tab = {ast.Eq: f"({ta}_eqb {a} {b})", ast.NotEq: f"(negb ({ta}_eqb {a} {b}))"}
            else:
                self.bad(n, f"comparison of {ta} and {tb}")
            if type(op) not in tab:
                self.bad(n, "comparison operator")
            return tab[type(op)], "bool"
        if isinstance(n, ast.BinOp):
            a, ta = self.ex(n.left, env, sv)
            b, tb = self.ex(n.right, env, sv)
            if ta == "Z" and tb == "Z" and isinstance(n.op, (ast.Add, ast.Sub, ast.Mult)):
                o = {ast.Add: "+", ast.Sub: "-", ast.Mult: "*"}[type(n.op)]
                return f"({a} {o} {b})", "Z"
            if {ta, tb} <= {"Z", "float"} and isinstance(n.op, (ast.Add, ast.Sub, ast.Mult, ast.Div)):
                if ta == "Z" and tb == "Z" and not isinstance(n.op, ast.Div):
                    self.bad(n, "unreachable")
                a2 = a if ta == "float" else f"(f_of_Z {a})"
                b2 = b if tb == "float" else f"(f_of_Z {b})"
                o = {ast.Add: "+", ast.Sub: "-", ast.Mult: "*", ast.Div: "/"}[type(n.op)]
                return f"({a2} {o} {b2})%float", "float"
            self.bad(n, f"binary operator on {ta}, {tb}")
        if isinstance(n, ast.Call) and c.clock and not n.args and not n.keywords and ast.unparse(n.func) == c.clock:
            return "now", "Z"
        if isinstance(n, ast.Call) and isinstance(n.func, ast.Name) and not n.keywords:
            if n.func.id in ("min", "max") and len(n.args) >= 2:
                parts = [self.ex(a, env, sv) for a in n.args]
                if any(t != "Z" for _, t in parts):
                    self.bad(n, "min/max over non-integers")
                f = "Z.min" if n.func.id == "min" else "Z.max"
                out = parts[0][0]
                for p, _ in parts[1:]:
                    out = f"({f} {out} {p})"
                return out, "Z"
            if n.func.id == "int" and len(n.args) == 1:
                a, t = self.ex(n.args[0], env, sv)
                if t == "float":
                    return f"(f_trunc {a})", "Z"
                if t == "Z":
                    return a, "Z"
            self.bad(n, "call")
        self.bad(n, "expression")

    # ------------------------------------------------------------------ statements
    def pure(self, n):
        return not any(isinstance(x, (ast.Call, ast.Await, ast.Yield, ast.NamedExpr)) for x in ast.walk(n))

    def is_dropped_stmt(self, st):
        """Statements with no effect on the modelled state."""
        c = self.cfg
        if isinstance(st, ast.Expr):
            v = st.value
            if isinstance(v, ast.Constant) and isinstance(v.value, str):
                return True                          # docstring
            if isinstance(v, ast.Call):
                f = v.func
                if isinstance(f, ast.Name) and f.id == "print":
                    return True
                if isinstance(f, ast.Attribute) and isinstance(f.value, ast.Name) and f.value.id == "self":
                    if f.attr in c.audit_methods or f.attr in c.callbacks:
                        return True
                # method call on an audit attribute (self._transactions.clear())
                if isinstance(f, ast.Attribute) and isinstance(f.value, ast.Attribute) \
                        and isinstance(f.value.value, ast.Name) and f.value.value.id == "self" \
                        and f.value.attr in c.audit_attrs:
                    return True
            return False
        if isinstance(st, (ast.Assign, ast.AugAssign)):
            tgts = st.targets if isinstance(st, ast.Assign) else [st.target]
            if all(isinstance(t, ast.Attribute) and isinstance(t.value, ast.Name) and t.value.id == "self"
                   and t.attr in c.audit_attrs for t in tgts):
                # the right-hand side may only mention audit attributes, parameters and constants: it cannot fail
                # in a way that matters and reads nothing modelled that could be needed later
                return True
            return False
        if isinstance(st, ast.If):
            if all(self.is_dropped_stmt(x) for x in st.body) and all(self.is_dropped_stmt(x) for x in st.orelse):
                # the condition is evaluated but has no effect: names, attributes, comparisons, not/and/or only
                t = st.test
                ok = all(isinstance(x, (ast.Name, ast.Attribute, ast.Compare, ast.BoolOp, ast.UnaryOp, ast.Constant,
                                        ast.Load, ast.And, ast.Or, ast.Not, ast.cmpop, ast.expr_context, ast.operator,
                                        ast.BinOp))
                         for x in ast.walk(t))
                return ok
            return False
        if isinstance(st, ast.Pass):
            return True
        return False

    def returns(self, stmts):
        """Does every path through `stmts` end in a return?"""
        for st in stmts:
            if isinstance(st, ast.Return):
                return True
            if isinstance(st, ast.If) and st.orelse and self.returns(st.body) and self.returns(st.orelse):
                return True
            if isinstance(st, ast.With) and self.returns(st.body):
                return True
        return False

    def result(self, val_txt, val_ty, kind, two):
        c = self.cfg
        if kind == "proc":
            return "s"
        if val_ty == "unit":
            r = c.ret_ctor["unit"]
        elif val_ty in c.ret_ctor:
            r = f"({c.ret_ctor[val_ty]} {val_txt})"
        else:
            raise Unsupported(f"return of type {val_ty}")
        return f"(s, o, {r})" if two else f"(s, {r})"

    def st(self, stmts, env, kind, two):
        """Translate a statement list (with everything that follows it) to a Gallina term."""
        c = self.cfg
        if not stmts:
            return self.result("tt", "unit", kind, two)
        st, rest = stmts[0], stmts[1:]
        if self.is_dropped_stmt(st):
            return self.st(rest, env, kind, two)
        if isinstance(st, ast.Return):
            if kind == "proc":
                if st.value is not None:
                    self.bad(st, "value returned from a procedure")
                return "s"
            if st.value is None:
                return self.result("tt", "unit", kind, two)
            v, t = self.ex(st.value, env)
            return self.result(v, t, kind, two)
        if isinstance(st, ast.With):
            for it in st.items:
                e = it.context_expr
                if not (isinstance(e, ast.Attribute) and isinstance(e.value, ast.Name) and e.value.id == "self"
                        and e.attr in c.lock_attrs and it.optional_vars is None):
                    self.bad(st, "with-statement on something that is not the object's lock")
            return self.st(list(st.body) + rest, env, kind, two)
        if isinstance(st, ast.If):
            cond, t = self.ex(st.test, env)
            if t != "bool":
                self.bad(st.test, "condition is not boolean")
            a = self.st(list(st.body) + ([] if self.returns(st.body) else rest), dict(env), kind, two)
            b = self.st(list(st.orelse) + ([] if (st.orelse and self.returns(st.orelse)) else rest), dict(env), kind, two)
            return f"(if {cond}\n then {a}\n else {b})"
        if isinstance(st, (ast.Assign, ast.AugAssign)):
            if isinstance(st, ast.Assign):
                if len(st.targets) != 1:
                    self.bad(st, "multiple targets")
                tgt, val = st.targets[0], st.value
            else:
                tgt = st.target
                val = ast.BinOp(left=ast.copy_location(
                    ast.Attribute(value=tgt.value, attr=tgt.attr, ctx=ast.Load()) if isinstance(tgt, ast.Attribute)
                    else ast.Name(id=tgt.id, ctx=ast.Load()), tgt), op=st.op, right=st.value)
                ast.copy_location(val, st)
            v, t = self.ex(val, env)
            if isinstance(tgt, ast.Name):
                if tgt.id in env and env[tgt.id] != t:
                    self.bad(st, f"variable changes type from {env[tgt.id]} to {t}")
                if tgt.id in ("s", "o"):
                    self.bad(st, "local variable named like the state")
                env2 = dict(env)
                env2[tgt.id] = t
                return f"(let {tgt.id} := {v} in\n {self.st(rest, env2, kind, two)})"
            if isinstance(tgt, ast.Attribute) and isinstance(tgt.value, ast.Name) and tgt.value.id == "self" \
                    and tgt.attr in c.fields:
                f, ft = c.fields[tgt.attr]
                if ft == "optZ" and t == "Z":
                    v, t = f"(Some {v})", "optZ"
                if ft == "optZ" and t == "unit":
                    v, t = "None", "optZ"
                if ft != t:
                    self.bad(st, f"field {tgt.attr} of type {ft} assigned a {t}")
                return f"(let s := {c.prefix}set_{f} s {v} in\n {self.st(rest, env, kind, two)})"
            self.bad(st, "assignment target")
        if isinstance(st, ast.Expr) and isinstance(st.value, ast.Call):
            call = st.value
            f = call.func
            if isinstance(f, ast.Attribute) and isinstance(f.value, ast.Name) and not call.keywords:
                recv = f.value.id
                if f.attr in c.methods and (recv == "self" or recv == c.other_param):
                    args = []
                    sig = self.signature(f.attr)
                    if len(call.args) > len(sig):
                        self.bad(st, "too many arguments")
                    for (pn, pt, dflt), a in zip(sig, list(call.args) + [None] * (len(sig) - len(call.args))):
                        if pt == "str":
                            continue
                        if a is None:
                            if dflt is None:
                                self.bad(st, f"missing argument {pn}")
                            a = dflt
                        v, t = self.ex(a, env)
                        if t != pt:
                            self.bad(st, f"argument {pn} has type {t}, expected {pt}")
                        args.append(v)
                    target = "s" if (recv == "self" or self.alias) else "o"
                    if recv != "self" and not two and not self.alias:
                        self.bad(st, "call on another instance")
                    callee = f"{c.prefix}{f.attr.lstrip('_')} {target} " + ("now " if c.clock else "") + " ".join(args)
                    if c.methods[f.attr] == "proc":
                        return f"(let {target} := {callee} in\n {self.st(rest, env, kind, two)})"
                    return f"(let {target} := fst ({callee}) in\n {self.st(rest, env, kind, two)})"
            self.bad(st, "call statement")
        self.bad(st, "statement")

    # ------------------------------------------------------------------ methods
    def signature(self, name):
        if name in self.sigs:
            return self.sigs[name]
        m = self.meths[name]
        a = m.args
        if a.vararg or a.kwarg or a.kwonlyargs or a.posonlyargs:
            self.bad(m, "signature")
        params = a.args[1:]
        defaults = [None] * (len(params) - len(a.defaults)) + list(a.defaults)
        out = []
        for p, d in zip(params, defaults):
            t = self.ann_type(p.annotation)
            if t is None:
                self.bad(m, f"parameter {p.arg} has no annotation")
            out.append((p.arg, t, d))
        self.sigs[name] = out
        return out

    def check_audit_method(self, name):
        m = self.meths.get(name)
        if m is None:
            raise Unsupported(f"audit method {name} not found")
        for x in ast.walk(m):
            if isinstance(x, ast.Attribute) and isinstance(x.value, ast.Name) and x.value.id == "self":
                if x.attr not in self.cfg.audit_attrs:
                    self.bad(x, f"audit method {name} touches a modelled attribute")
            if isinstance(x, (ast.Return,)) and x.value is not None:
                self.bad(x, "audit method returns a value")

    def method(self, name, alias=False):
        c = self.cfg
        if name not in self.meths:
            raise Unsupported(f"method {name} not found in class {c.cls}")
        m = self.meths[name]
        kind = c.methods[name]
        sig = self.signature(name)
        two = any(t == "other" for _, t, _ in sig) and not alias
        self.alias = alias
        env = {p: t for p, t, _ in sig if t != "other"}
        body = self.st(list(m.body), env, kind, two)
        self.alias = False
        params = " ".join(f"({p} : {t})" for p, t, _ in sig if t not in ("str", "other"))
        if c.clock:
            params = "(now : Z) " + params
        fname = f"{c.prefix}{name.lstrip('_')}" + ("_self" if alias else "")
        st = c.state_type
        if two:
            return f"Definition {fname} (s o : {st}) {params} : {st} * {st} * ret :=\n {body}.\n"
        if kind == "proc":
            return f"Definition {fname} (s : {st}) {params} : {st} :=\n {body}.\n"
        return f"Definition {fname} (s : {st}) {params} : {st} * ret :=\n {body}.\n"

    def check_writers(self, allowed=("__init__",)):
        """Modelled attributes are assigned only inside the translated methods (and the constructor)."""
        c = self.cfg
        ok = set(c.methods) | set(allowed)
        for name, m in self.meths.items():
            if name in ok:
                continue
            for x in ast.walk(m):
                tg = []
                if isinstance(x, ast.Assign):
                    tg = x.targets
                elif isinstance(x, (ast.AugAssign, ast.AnnAssign)):
                    tg = [x.target]
                elif isinstance(x, ast.Delete):
                    tg = x.targets
                for t in tg:
                    for y in ast.walk(t):
                        if isinstance(y, ast.Attribute) and isinstance(y.value, ast.Name) and y.value.id == "self" \
                                and y.attr in c.fields:
                            self.bad(x, f"modelled attribute {y.attr} is assigned in method {name}, which is not translated")
                if isinstance(x, ast.Call) and isinstance(x.func, ast.Name) and x.func.id in ("setattr", "delattr", "vars"):
                    self.bad(x, f"{x.func.id} in method {name}")
                if isinstance(x, ast.Attribute) and x.attr == "__dict__":
                    self.bad(x, f"__dict__ access in method {name}")

    def callers(self, targets):
        """{method: [called target, ...]} for every method of the class that calls one of `targets` on self."""
        out = {}
        for name, m in self.meths.items():
            sites = []
            for x in ast.walk(m):
                if isinstance(x, ast.Call) and isinstance(x.func, ast.Attribute) and isinstance(x.func.value, ast.Name) \
                        and x.func.value.id == "self" and x.func.attr in targets:
                    sites.append((x.lineno, x.col_offset, x.func.attr))
            if sites:
                out[name] = [a for _, _, a in sorted(sites)]
        return out

    def emit(self, order):
        c = self.cfg
        self.check_writers()
        for a in c.audit_methods:
            self.check_audit_method(a)
        out = [c.header, ""]
        # enum equality tests
        for py, (ty, members) in c.enums.items():
            ctors = list(members.values())
            rows = " ".join(f"| {k}, {k} => true" for k in ctors)
            out.append(f"Definition {ty}_eqb (a b : {ty}) : bool := match a, b with {rows} | _, _ => false end.")
        # state record
        fs = list(c.fields.values())
        out.append(f"Record {c.state_type} := mk_{c.state_type} {{ " +
                   "; ".join(f"{c.prefix}{f} : {'option Z' if t == 'optZ' else t}" for f, t in fs) + " }.")
        for f, t in fs:
            args = " ".join(("v" if g == f else f"({c.prefix}{g} s)") for g, _ in fs)
            t = "option Z" if t == "optZ" else t
            out.append(f"Definition {c.prefix}set_{f} (s : {c.state_type}) (v : {t}) : {c.state_type} := "
                       f"mk_{c.state_type} {args}.")
        out.append("")
        for name in order:
            out.append(self.method(name))
            sig = self.signature(name)
            if any(t == "other" for _, t, _ in sig):
                out.append(self.method(name, alias=True))
        return "\n".join(out) + "\n"
