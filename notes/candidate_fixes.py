"""
Design appendix — NOT part of the verification machinery, NOT applied to /repo.

Dry-run drafts of the candidate `fix:` repairs listed in DESIGN.md §7. During the
design phase they were applied to a scratch export of /repo (outside /repo and
/verif, since removed): the unedited suite stayed at 658 passed with all of them
applied together (124 changed lines in total), and each one was observed to
correct the behaviour it targets. Each will become its own minimal `fix:` commit
only when the corresponding model and theorem exist. Usage (scratch copy only):
    cd <scratch export of /repo> && /venv/bin/python candidate_fixes.py
"""
def rep(path, old, new, count=1):
    s=open(path).read()
    assert s.count(old)==count, (path, old[:40], s.count(old))
    open(path,'w').write(s.replace(old,new))
# C04 (i) recompute balance after NADH top-up
rep('operon_ai/state/metabolism.py',
"""                    self._update_state()
                    return True

            # Try to use debt""",
"""                    self._update_state()
                    return True
                balance = self.atp

            # Try to use debt""")
# C04 (ii) zero NADH pool in debt branch
rep('operon_ai/state/metabolism.py',
"""                    elif energy_type == EnergyType.GTP:
                        self.gtp = 0

                    if not self.silent:
                        print(f"💳""",
"""                    elif energy_type == EnergyType.GTP:
                        self.gtp = 0
                    else:
                        self.nadh = 0

                    if not self.silent:
                        print(f"💳""")
# C04 (iii) zero capacity
rep('operon_ai/state/metabolism.py',"        if self._debt > 0:\n            ratio -=","        if self._debt > 0 and total_capacity > 0:\n            ratio -=")
# C08
rep('operon_ai/topology/loops.py',"        elif result.blocked:\n            # Blocks are intentional, not failures","        elif result.blocked and result.success:\n            # Blocks are intentional, not failures")
# C09
rep('operon_ai/state/telomere.py',"self._lock = threading.Lock()","self._lock = threading.RLock()")
rep('operon_ai/state/telomere.py',"        if self._phase in (LifecyclePhase.SENESCENT, LifecyclePhase.APOPTOTIC, LifecyclePhase.TERMINATED):\n            return","        if self._phase != LifecyclePhase.ACTIVE:\n            return")
# C13
rep('operon_ai/organelles/lysosome.py',"self._lock = threading.Lock()","self._lock = threading.RLock()")
# C14
rep('operon_ai/coordination/controller.py',
"""        for resource_id in list(ctx.acquired_resources.keys()):
            self.release_resource(ctx, resource_id)""",
"""        for resource_id in list(ctx.acquired_resources.keys()):
            lock = ctx.acquired_resources[resource_id]
            while lock.owner == ctx.operation_id and lock.hold_count > 1:
                lock.release(owner=ctx.operation_id)
            self.release_resource(ctx, resource_id)""")
# C19
rep('operon_ai/topology/cascade.py',
"""                        stage_results.append(stage_result)
                        blocked_at = stage.name
                        break

            # Process stage""",
"""                        stage_results.append(stage_result)
                        blocked_at = stage.name
                        break
                    stage_results.append(StageResult(
                        stage_name=stage.name,
                        status=StageStatus.FAILED,
                        input_signal=current_signal,
                        output_signal=None,
                        error=str(e),
                        processing_time_ms=(time.time() - stage_start) * 1000
                    ))
                    blocked_at = stage.name
                    continue

            # Process stage""")
# C03
rep('operon_ai/organelles/mitochondria.py',
"""        try:
            tool = self.tools[call.name]
            result = tool.execute(**call.arguments)""",
"""        try:
            tool = self.tools[call.name]
            self._require_capabilities(call.name, tool)
            result = tool.execute(**call.arguments)""")
rep('operon_ai/organelles/mitochondria.py',
"""        tool = self.tools[tool_name]
        required_caps = (
            getattr(tool, "required_capabilities", None)
            or getattr(tool, "capabilities", None)
            or set()
        )
        required_caps = set(required_caps)
        if self.allowed_capabilities is not None and not required_caps.issubset(self.allowed_capabilities):
            missing = sorted(
                (c.value if isinstance(c, Capability) else str(c)) for c in (required_caps - self.allowed_capabilities)
            )
            raise PermissionError(
                f"Tool '{tool_name}' requires disallowed capabilities: {missing}"
            )

        args =""",
"""        tool = self.tools[tool_name]
        self._require_capabilities(tool_name, tool)

        args =""")
rep('operon_ai/organelles/mitochondria.py',
"""    def _beta_oxidation(self, expression: str) -> Any:""",
"""    def _require_capabilities(self, tool_name: str, tool: Tool) -> None:
        \"\"\"Least privilege: refuse tools whose required capabilities are not allowed.\"\"\"
        required_caps = (
            getattr(tool, "required_capabilities", None)
            or getattr(tool, "capabilities", None)
            or set()
        )
        required_caps = set(required_caps)
        if self.allowed_capabilities is not None and not required_caps.issubset(self.allowed_capabilities):
            missing = sorted(
                (c.value if isinstance(c, Capability) else str(c)) for c in (required_caps - self.allowed_capabilities)
            )
            raise PermissionError(
                f"Tool '{tool_name}' requires disallowed capabilities: {missing}"
            )

    def _beta_oxidation(self, expression: str) -> Any:""")
# C10
rep('operon_ai/organelles/membrane.py','content_hash = hashlib.sha256(content.encode()).hexdigest()[:16]','content_hash = hashlib.sha256(content.encode("utf-8", "surrogatepass")).hexdigest()[:16]')
rep('operon_ai/surveillance/innate.py',
"""        except json.JSONDecodeError as e:
            return False, f"Invalid JSON: {e}\"""",
"""        except (ValueError, RecursionError) as e:
            return False, f"Invalid JSON: {e}\"""")
# C17
rep('operon_ai/surveillance/immune_system.py',
"""        recalled = self.memory.recall_by_hashes(
            agent_id=agent_id,
            vocabulary_hash=peptide.vocabulary_hash,
            structure_hash=peptide.structure_hash,
        )
""",
"""        recalled = None
        if not tcell.is_anergic and tcell.profile.check(peptide):
            recalled = self.memory.recall_by_hashes(
                agent_id=agent_id,
                vocabulary_hash=peptide.vocabulary_hash,
                structure_hash=peptide.structure_hash,
            )
""")
# C06 emergency
rep('operon_ai/topology/quorum.py',
"        threshold = int(self.custom_threshold or len(self.colony) // 2 + 1)",
"""        threshold = self.custom_threshold or len(self.colony) // 2 + 1
        if 0 < threshold < 1:
            # Fractional thresholds are a share of the colony, never zero voters
            threshold = max(1, math.ceil(threshold * len(self.colony)))
        threshold = int(threshold)""")
# C01 print
rep('operon_ai/organelles/mitochondria.py',
"""        if not self.silent:
            print(f"⚡ [Mitochondria] Metabolizing: {expression[:50]}...")

        try:
""",
"""        try:
            if not self.silent:
                print(f"⚡ [Mitochondria] Metabolizing: {expression[:50]}...")

""")

# ---- second batch: C02 x3, C06 Bayesian, C15 ----
M='operon_ai/organelles/mitochondria.py'
# C02 (i) and/or with Python semantics
rep(M,
"""            values = [self._compute_node(v) for v in node.values]
            bool_func = self.SAFE_BOOL_OPS.get(type(node.op))
            if bool_func is None:
                raise ValueError(f"Unsupported boolean op: {type(node.op).__name__}")
            return bool_func(values)""",
"""            if type(node.op) not in self.SAFE_BOOL_OPS:
                raise ValueError(f"Unsupported boolean op: {type(node.op).__name__}")
            stop_on = isinstance(node.op, ast.Or)
            value = None
            for v in node.values:
                value = self._compute_node(v)
                if bool(value) == stop_on:
                    break
            return value""")
# C02 (ii) keywords
rep(M,
"""                    args = [self._compute_node(arg) for arg in node.args]
                    if callable(func):
                        return func(*args)""",
"""                    args = [self._compute_node(arg) for arg in node.args]
                    if any(kw.arg is None for kw in node.keywords):
                        raise ValueError("Keyword unpacking not supported")
                    kwargs = {kw.arg: self._compute_node(kw.value) for kw in node.keywords}
                    if callable(func):
                        return func(*args, **kwargs)""")
# C02 (iii) no textual rewrite
rep(M,
"""        # Normalize Python boolean literals
        expression = expression.replace('True', '1').replace('False', '0')
        expression = expression.replace('true', '1').replace('false', '0')

        tree = ast.parse(expression, mode='eval')
        return bool(self._compute_node(tree.body))""",
"""        tree = ast.parse(expression, mode='eval')
        # Normalize lowercase boolean literals on the AST, never inside strings
        for name in ast.walk(tree):
            if isinstance(name, ast.Name) and name.id in ('true', 'false'):
                name.id = 'True' if name.id == 'true' else 'False'
        return bool(self._compute_node(tree.body))""")
rep(M,
"""            if node.id in self.SAFE_FUNCTIONS:
                return self.SAFE_FUNCTIONS[node.id]
            raise ValueError(f"Unknown variable: {node.id}")""",
"""            if node.id in self.SAFE_FUNCTIONS:
                return self.SAFE_FUNCTIONS[node.id]
            if node.id in ('True', 'False'):
                return node.id == 'True'
            raise ValueError(f"Unknown variable: {node.id}")""")
# C06 bayes
Q='operon_ai/topology/quorum.py'
rep(Q,
"""            prior_permit = self._bayesian_update(prior_permit, likelihood, vote.weight)

        for vote in block_votes:
            likelihood = 0.5 + (vote.confidence * 0.4)
            prior_block = self._bayesian_update(prior_block, likelihood, vote.weight)
""",
"""            prior_permit = self._bayesian_update(prior_permit, likelihood, vote.weight)
            prior_block = self._bayesian_update(prior_block, 1.0 - likelihood, vote.weight)

        for vote in block_votes:
            likelihood = 0.5 + (vote.confidence * 0.4)
            prior_block = self._bayesian_update(prior_block, likelihood, vote.weight)
            prior_permit = self._bayesian_update(prior_permit, 1.0 - likelihood, vote.weight)
""")
rep(Q,"        reached = posterior_permit > threshold\n","        reached = posterior_permit > threshold and len(permit_votes) > 0\n")
rep(Q,"        adjusted_likelihood = 0.5 + (likelihood - 0.5) * weight\n","        adjusted_likelihood = min(1.0, max(0.0, 0.5 + (likelihood - 0.5) * weight))\n")
# C15
T='operon_ai/coordination/types.py'
rep(T,
"""    def detect_cycle(self) -> Optional[DeadlockInfo]:""",
"""    def remove_wait(self, waiter: str, resource: str) -> None:
        \"\"\"Waiter no longer waits for this resource.\"\"\"
        if waiter in self.edges:
            self.edges[waiter] = [(b, r) for b, r in self.edges[waiter] if r != resource]
            if not self.edges[waiter]:
                del self.edges[waiter]

    def retarget_resource(self, resource: str, owner: Optional[str]) -> None:
        \"\"\"Resource changed hands: waiters now wait on `owner` (None = it is free).\"\"\"
        for waiter in list(self.edges.keys()):
            self.edges[waiter] = [
                (owner if r == resource else b, r)
                for b, r in self.edges[waiter]
                if r != resource or owner is not None
            ]
            if not self.edges[waiter]:
                del self.edges[waiter]

    def detect_cycle(self) -> Optional[DeadlockInfo]:""")
C='operon_ai/coordination/controller.py'
rep(C,
"""            ctx.add_acquired_resource(lock)
            # Remove any dependency since we now own it
            self.dependency_graph.remove_all_for_agent(ctx.operation_id)
""",
"""            ctx.add_acquired_resource(lock)
            # We no longer wait for this resource (others may still wait on us)
            self.dependency_graph.remove_wait(ctx.operation_id, resource_id)
""")
rep(C,
"""            ctx.add_acquired_resource(lock)
            # Clear old dependencies
            self.dependency_graph.remove_all_for_agent(ctx.operation_id)
""",
"""            ctx.add_acquired_resource(lock)
            # We own it now; its other waiters wait on us
            self.dependency_graph.remove_wait(ctx.operation_id, resource_id)
            self.dependency_graph.retarget_resource(resource_id, ctx.operation_id)
""")
rep(C,
"""        if released:
            del ctx.acquired_resources[resource_id]
            self.dependency_graph.remove_all_for_agent(ctx.operation_id)
""",
"""        if released:
            del ctx.acquired_resources[resource_id]
            if lock.owner is None:
                self.dependency_graph.retarget_resource(resource_id, None)
""")
rep(C,
"""        self.release_all_resources(ctx)
        ctx.enter_phase(Phase.G0)
""",
"""        self.release_all_resources(ctx)
        self.dependency_graph.remove_all_for_agent(ctx.operation_id)
        ctx.enter_phase(Phase.G0)
""",2)
print("applied2")
