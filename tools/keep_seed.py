"""tools/keep_seed.py <PID> <K> [--src DIR] [--checks C01,C02]
Confirm a seeded change (from /tmp/seedout_<PID>/patch_<K>.diff, demo_<K>.py, note_<K>.txt) in a scratch
worktree of /repo, run the property's quick check against it, and keep it as /verif/seeded/<PID>-<K>/."""
import json, os, re, shutil, subprocess, sys, time
pid, k = sys.argv[1], sys.argv[2]
src = f"/tmp/seedout_{pid}"
checks = [pid]
name = None
args = sys.argv[3:]
while args:
    a = args.pop(0)
    if a == "--src": src = args.pop(0)
    if a == "--checks": checks = args.pop(0).split(",")
    if a == "--name": name = args.pop(0)
patch, demo, note = f"{src}/patch_{k}.diff", f"{src}/demo_{k}.py", f"{src}/note_{k}.txt"
wt = f"/tmp/keepseed_{os.getpid()}"
def sh(cmd, **kw):
    return subprocess.run(cmd, shell=True, capture_output=True, text=True, **kw)
head = sh("git -C /repo rev-parse --short HEAD").stdout.strip()
assert sh(f"git -C /repo worktree add -q --detach {wt} HEAD").returncode == 0
ran = []
try:
    env = dict(os.environ, PYTHONPATH=wt)
    r = sh(f"cd {wt} && /venv/bin/python {demo}", env=env); clean_exit = r.returncode
    ran.append({"cmd": f"demo on unmodified HEAD {head}", "exit": clean_exit})
    r = sh(f"git -C {wt} apply --3way {patch}")
    if r.returncode != 0:
        print("patch does not apply:", r.stderr); sys.exit(2)
    # the patch as it applies to the current HEAD
    cur_patch = sh(f"git -C {wt} diff HEAD").stdout
    r = sh(f"cd {wt} && /venv/bin/python -m pytest -q -p no:cacheprovider --timeout=900 2>&1 | tail -1", env=env)
    suite = r.stdout.strip(); ran.append({"cmd": "pytest (full suite) with the change", "result": suite})
    r = sh(f"cd {wt} && /venv/bin/python {demo}", env=env); changed_exit = r.returncode
    demo_out = "\n".join(l for l in (r.stdout + r.stderr).splitlines() if not l.startswith("WARNING conda"))[-800:]
    ran.append({"cmd": "demo with the change", "exit": changed_exit, "output_tail": demo_out})
    results = {}
    for c in checks:
        t0 = time.time()
        r = sh(f"cd /verif && VERIF_REPO={wt} timeout 1200 ./check {c}")
        lines = [l for l in r.stdout.splitlines() if l.startswith(("VIOLATION", "[C", "KNOWN"))]
        sig = what = case = None
        m = re.search(r"replay=(\S+)", r.stdout)
        if m and os.path.exists("/verif/" + m.group(1)):
            d = json.load(open("/verif/" + m.group(1)))
            sig, what, case = d.get("signature"), d.get("what"), d.get("case")
        results[c] = {"exit": r.returncode, "lines": [l[:300] for l in lines], "signature": sig, "what": what,
                      "replay_case": case, "wall_s": round(time.time() - t0, 1)}
        ran.append({"cmd": f"VERIF_REPO=<worktree with the change> ./check {c} --tier quick", "exit": r.returncode})
        sh(f"rm -f /verif/replays/{c}_*.json")
finally:
    sh(f"git -C /repo worktree remove --force {wt}")
ok = clean_exit == 0 and changed_exit != 0 and "658 passed" in suite
out = f"/verif/seeded/{name or (pid + '-' + k)}"
os.makedirs(out, exist_ok=True)
open(f"{out}/patch.diff", "w").write(cur_patch)
shutil.copy(demo, f"{out}/demo.py")
notetxt = open(note).read() if os.path.exists(note) else ""
open(f"{out}/note.txt", "w").write(notetxt)
caught = {c: (v["exit"] == 1 and any(l.startswith("VIOLATION") for l in v["lines"])) for c, v in results.items()}
meta = {"property": pid, "breaks": notetxt.strip().splitlines()[:12], "base_commit": head,
        "confirmed": ok, "suite_with_change": suite, "demo_exit_clean": clean_exit, "demo_exit_changed": changed_exit,
        "what_was_run": ran, "checks": results, "caught_by": [c for c, v in caught.items() if v],
        "written_by": "independent sub-agent given only the property text and a scratch worktree"}
json.dump(meta, open(f"{out}/meta.json", "w"), indent=1)
print(pid, k, "confirmed" if ok else "NOT CONFIRMED", suite, "| caught:", caught,
      "|", {c: v["signature"] for c, v in results.items()})
