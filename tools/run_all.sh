#!/bin/bash
# tools/run_all.sh [quick|thorough] [Cxx ...]  - the claimed checks (all, or the ones named), sequentially, on /repo
cd "$(dirname "$0")/.."
tier=${1:-quick}; shift
props="$@"
[ -z "$props" ] && props=$(/venv/bin/python -c "import json; print(' '.join(c['property_id'] for c in json.load(open('MANIFEST.json'))['checks']))")
for p in $props; do
  t0=$(date +%s)
  timeout 7200 ./check $p --tier $tier > /tmp/runall_${tier}_$p.log 2>&1; rc=$?
  echo "$p rc=$rc $(( $(date +%s) - t0 ))s $(grep -E '^\[C' /tmp/runall_${tier}_$p.log | cut -c1-150) $(grep -c '^VIOLATION' /tmp/runall_${tier}_$p.log) violation-lines"
done
