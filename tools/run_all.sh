#!/bin/bash
# tools/run_all.sh [quick|thorough]  - every claimed check, sequentially, on /repo; summary at the end
cd "$(dirname "$0")/.."
tier=${1:-quick}
for p in $(/venv/bin/python -c "import json; print(' '.join(c['property_id'] for c in json.load(open('MANIFEST.json'))['checks']))"); do
  t0=$(date +%s)
  timeout 7200 ./check $p --tier $tier > /tmp/runall_$p.log 2>&1; rc=$?
  echo "$p rc=$rc $(( $(date +%s) - t0 ))s $(grep -E '^\[C' /tmp/runall_$p.log | cut -c1-150) $(grep -c '^VIOLATION' /tmp/runall_$p.log) violation-lines"
done
