"""tools/test_pyimp.py [N] [seed]  - differential test of the translator itself (translators/pyimp.py).

Generates N random classes inside the supported subset (integer / bool / enum / optional attributes, if/elif/else,
early returns, augmented assignments, min/max, guarded and unguarded int/int divisions compared as floats, calls of a
helper method, `with self._lock`), translates each with pyimp in BOTH shapes, evaluates the generated Gallina
functions inside Coq (vm_compute) on random states and arguments, and compares with what CPython does when the
class is executed.  Exit 0 iff every comparison agrees.  This is a test of the trusted translator, not a proof."""
import os
import random
import subprocess
import sys
import tempfile

sys.path.insert(0, "/verif")
from translators import pyimp  # noqa: E402

N = int(sys.argv[1]) if len(sys.argv) > 1 else 40
SEED = int(sys.argv[2]) if len(sys.argv) > 2 else 0
rng = random.Random(SEED)

FIELDS = ["a", "b", "c"]
HEADER = """From Coq Require Import ZArith Bool List PrimFloat Uint63.
Import ListNotations.
Open Scope Z_scope.
Inductive mode := M0 | M1 | M2.
Inductive ret := RBool (b : bool) | RInt (z : Z) | RUnit.
Inductive outcome := Ret (r : ret) | Raised.
Definition f_of_Z (z : Z) : float :=
  if z <? 0 then (- of_uint63 (Uint63.of_Z (- z)))%float else of_uint63 (Uint63.of_Z z).
Definition f_trunc (f : float) : Z := 0.
"""


def cfg(effects):
    return pyimp.Config(
        cls="T", state_type="gs", prefix="g_",
        fields={"a": ("a", "Z"), "b": ("b", "Z"), "c": ("c", "Z"), "flag": ("flag", "bool"), "mode": ("mode", "mode"),
                "stamp": ("stamp", "optI")},
        audit_attrs={"_log"}, audit_methods={"_note"}, callbacks={"on_change"}, lock_attrs={"_lock"},
        enums={"Mode": ("mode", {"M0": "M0", "M1": "M1", "M2": "M2"})},
        methods={"helper": "proc", "m": "fun"},
        ret_ctor=({"bool": "Ret (RBool %s)", "Z": "Ret (RInt %s)", "unit": "Ret RUnit", "raise": "Raised"} if effects
                  else {"bool": "RBool", "Z": "RInt", "unit": "RUnit"}),
        effects=effects, event_type="Z", outcome_type="outcome", header=HEADER)


def iexpr(d, names):
    k = rng.random()
    if d <= 0 or k < 0.35:
        return rng.choice(names + [str(rng.randint(-3, 6))])
    if k < 0.75:
        return f"({iexpr(d - 1, names)} {rng.choice(['+', '-', '*'])} {iexpr(d - 1, names)})"
    return f"{rng.choice(['min', 'max'])}({iexpr(d - 1, names)}, {iexpr(d - 1, names)})"


def bexpr(d, names):
    k = rng.random()
    if d <= 0 or k < 0.5:
        return f"{iexpr(1, names)} {rng.choice(['<', '<=', '>', '>=', '==', '!='])} {iexpr(1, names)}"
    if k < 0.6:
        return "self.flag"
    if k < 0.7:
        return f"self.mode {rng.choice(['==', '!='])} Mode.{rng.choice(['M0', 'M1', 'M2'])}"
    if k < 0.78:
        return f"self.mode {rng.choice(['in', 'not in'])} (Mode.{rng.choice(['M0', 'M1'])}, Mode.M2)"
    if k < 0.9:
        return f"({bexpr(d - 1, names)} {rng.choice(['and', 'or'])} {bexpr(d - 1, names)})"
    return f"not ({bexpr(d - 1, names)})"


def stmts(d, names, ind, in_m, allow_div):
    out = []
    for _ in range(rng.randint(1, 3)):
        k = rng.random()
        pad = " " * ind
        if k < 0.3:
            out.append(f"{pad}self.{rng.choice(FIELDS)} {rng.choice(['=', '+=', '-='])} {iexpr(2, names)}")
        elif k < 0.4:
            v = rng.choice(["t", "u"])
            out.append(f"{pad}{v} = {iexpr(2, names)}")
            if v not in names:
                names = names + [v]
        elif k < 0.45:
            out.append(f"{pad}self.flag = {bexpr(1, names)}")
        elif k < 0.5:
            out.append(f"{pad}self.mode = Mode.{rng.choice(['M0', 'M1', 'M2'])}")
        elif k < 0.55:
            out.append(f"{pad}self.stamp = {rng.choice(['None', iexpr(1, names)])}")
        elif k < 0.6 and in_m:
            out.append(f"{pad}self.helper({iexpr(1, names)})")
        elif k < 0.65:
            out.append(f"{pad}self._note({iexpr(1, names)})")
            out.append(f"{pad}if not self.flag:\n{pad}    print('x')")
        elif k < 0.72 and allow_div:
            den = rng.choice(["self.a", "self.b", "x"] if in_m else ["self.a", "self.b"])
            if rng.random() < 0.5:
                out.append(f"{pad}if {den} > 0:\n{pad}    if {iexpr(1, names)} / {den} >= 0.5:\n{pad}        self.c += 1")
            else:
                out.append(f"{pad}if {iexpr(1, names)} / {den} <= 0.25:\n{pad}    self.c -= 1")
        elif k < 0.8 and in_m:
            out.append(f"{pad}if self.stamp and x - self.stamp >= 2:\n{pad}    self.b = 0")
        elif d > 0:
            body = stmts(d - 1, list(names), ind + 4, in_m, allow_div)
            s = f"{pad}if {bexpr(1, names)}:\n" + "\n".join(body)
            if rng.random() < 0.4:
                s += f"\n{pad}elif {bexpr(1, names)}:\n" + "\n".join(stmts(d - 1, list(names), ind + 4, in_m, allow_div))
            if rng.random() < 0.5:
                s += f"\n{pad}else:\n" + "\n".join(stmts(d - 1, list(names), ind + 4, in_m, allow_div))
            out.append(s)
        else:
            out.append(f"{pad}self.a = {iexpr(1, names)}")
        if in_m and rng.random() < 0.12:
            out.append(f"{pad}return {bexpr(1, names)}")
            break
    return out


def make_class(allow_div):
    fields = ["self.a", "self.b", "self.c"]
    hb = "\n".join(stmts(1, fields + ["k"], 12, False, allow_div))
    mb = "\n".join(stmts(2, fields + ["x", "y"], 12, True, allow_div))
    return f"""
import enum, threading
class Mode(enum.Enum):
    M0 = 0
    M1 = 1
    M2 = 2
class T:
    def __init__(self, a, b, c, flag, mode, stamp):
        self.a = a; self.b = b; self.c = c; self.flag = flag; self.mode = mode; self.stamp = stamp
        self._log = []
        self._lock = threading.RLock()
    def _note(self, v):
        self._log.append(v)
    def helper(self, k: int):
        with self._lock:
{hb}
    def m(self, x: int, y: int) -> bool:
        with self._lock:
{mb}
            return self.a >= self.b
"""


def coq_state(st):
    a, b, c, flag, mode, stamp = st
    return (f"(mk_gs ({a}) ({b}) ({c}) {'true' if flag else 'false'} M{mode} "
            f"{'None' if stamp is None else '(Some (' + str(stamp) + '))'})")


def py_run(src, st, x, y):
    ns = {}
    exec(src, ns)
    a, b, c, flag, mode, stamp = st
    o = ns["T"](a, b, c, flag, list(ns["Mode"])[mode], stamp)
    try:
        r = o.m(x, y)
        rr = [1, int(r)] if isinstance(r, bool) else [2, 0]
    except ZeroDivisionError:
        rr = [3, 0]
    return rr + [o.a, o.b, o.c, int(o.flag), o.mode.value, -1 if o.stamp is None else 1, 0 if o.stamp is None else o.stamp]


OBS = """
Definition mode_code (m : mode) : Z := match m with M0 => 0 | M1 => 1 | M2 => 2 end.
Definition st_obs (s : gs) : list Z :=
  [g_a s; g_b s; g_c s; (if g_flag s then 1 else 0); mode_code (g_mode s);
   match g_stamp s with Some _ => 1 | None => -1 end; match g_stamp s with Some v => v | None => 0 end].
"""


def main():
    bad = 0
    total = 0
    unsupported = 0
    work = tempfile.mkdtemp(prefix="pyimp_test_")
    try:
        for i in range(N):
            effects = i % 2 == 1
            src = make_class(allow_div=True)
            try:
                tr = pyimp.Translator(cfg(effects), src)
                txt = tr.emit(["helper", "m"])
            except pyimp.Unsupported as e:
                # the plain shape refuses unguarded divisions; that is the intended behaviour
                if not effects and "division" in str(e):
                    unsupported += 1
                    continue
                print("UNEXPECTED Unsupported:", e)
                print(src)
                bad += 1
                continue
            samples = []
            for _ in range(25):
                st = (rng.randint(-4, 6), rng.randint(-4, 6), rng.randint(-4, 6), rng.random() < 0.5, rng.randrange(3),
                      rng.choice([None, rng.randint(-2, 5)]))
                samples.append((st, rng.randint(-3, 6), rng.randint(-3, 6)))
            exp = [py_run(src, st, x, y) for st, x, y in samples]
            if effects:
                run = ("Definition run1 (s : gs) (x y : Z) : list Z := let '(s', o, _) := g_m s x y in "
                       "match o with Ret (RBool b) => [1; if b then 1 else 0] | Ret _ => [2; 0] | Raised => [3; 0] end ++ st_obs s'.")
            else:
                run = ("Definition run1 (s : gs) (x y : Z) : list Z := let '(s', r) := g_m s x y in "
                       "match r with RBool b => [1; if b then 1 else 0] | _ => [2; 0] end ++ st_obs s'.")
            body = txt + OBS + run + "\nEval vm_compute in [\n" + ";\n".join(
                f" run1 {coq_state(st)} ({x}) ({y})" for st, x, y in samples) + "\n].\n"
            f = os.path.join(work, f"T{i}.v")
            open(f, "w").write(body)
            r = subprocess.run(["timeout", "120", "coqc", f], capture_output=True, text=True, cwd=work)
            if r.returncode != 0:
                print("COQ ERROR on class", i, r.stderr[-800:] + r.stdout[-400:])
                print(src)
                bad += 1
                continue
            out = r.stdout.split("=", 1)[1]
            out = out[:out.rindex(":")].replace("\n", " ").replace(";", ",")
            got = eval(out)
            for (st, x, y), e, g in zip(samples, exp, got):
                total += 1
                if list(e) != list(g):
                    bad += 1
                    print(f"MISMATCH class {i} ({'effects' if effects else 'plain'}) state={st} x={x} y={y}: python {e} coq {g}")
                    print(src)
                    break
        print(f"pyimp differential test: classes={N} refused-as-intended={unsupported} comparisons={total} disagreements={bad}")
        return 1 if bad else 0
    finally:
        subprocess.run(["rm", "-rf", work])


if __name__ == "__main__":
    sys.exit(main())
