import json, sys, subprocess
pid = sys.argv[1]
p = [json.loads(l) for l in open('/verif/properties.jsonl') if json.loads(l)['id'] == pid][0]
wt = f"/tmp/seed_{pid}"
subprocess.run(f"git -C /repo worktree remove --force {wt} 2>/dev/null; git -C /repo worktree add -q --detach {wt} HEAD", shell=True)
print(f"""You are helping test a verification tool by writing realistic BUGS. You have your own scratch git worktree of the Python library coredipper/operon at {wt} (a checkout of the current HEAD). Work ONLY inside {wt} and /tmp/seedout_{pid}; do not look at or touch /repo, /verif or any other directory.

The library must keep this semantic property:

  Title: {p['title']}
  Statement: {p['statement']}
  Quantifier: {p['quantifier']['text']}
  Files involved: {', '.join(p['anchors']['files'])}

Your job: produce TWO different, independent changes to the library source (under {wt}/operon_ai/), each of which
  (1) BREAKS the property above (a genuine violation of the statement, observable through the public API),
  (2) still imports/compiles, and the existing test suite still passes completely with the change:
        cd {wt} && PYTHONPATH={wt} /venv/bin/python -m pytest -q -p no:cacheprovider --timeout=900 2>&1 | tail -3      (must report 658 passed)
      IMPORTANT: always set PYTHONPATH={wt} and run from inside {wt}; without it Python imports a different copy of the library.
  (3) looks like a plausible maintenance edit (refactor, optimisation, "simplification", new feature, edge-case handling), not sabotage,
  (4) needs something SPECIFIC to manifest: a particular interleaving, a fault at a particular point, a multi-step sequence of operations, an unusual input or configuration, or two cooperating sites that each look fine alone. Ordinary use should NOT expose it at once.
The two changes should be of different kinds (different function/mechanism, different triggering condition).

For each change k in {{A, B}} create in /tmp/seedout_{pid}/:
  - patch_k.diff : `git -C {wt} diff` of that change alone (apply each change to a clean tree: `git -C {wt} checkout -- .` between them),
  - demo_k.py : a small standalone program (run as `cd {wt} && PYTHONPATH={wt} /venv/bin/python /tmp/seedout_{pid}/demo_k.py`) that exits with status 1 and prints what went wrong WITH the change applied, and exits 0 on the unmodified tree. Verify both outcomes yourself.
  - note_k.txt : 5-10 lines: what the change is, why it violates the property, what exactly is needed for it to manifest, and confirmation that the suite passed (paste the pytest summary line).
Leave the worktree clean at the end (`git -C {wt} checkout -- .`). Interpreter: /venv/bin/python. Every shell call prints a harmless 'WARNING conda...' line; ignore it. No network. Finish with a short summary of the two changes.""")
