"""Regenerate MANIFEST.json from the harness modules (run from /verif)."""
import importlib, json, pkgutil, sys
sys.path.insert(0, ".")
import harness

props = [json.loads(l)["id"] for l in open("properties.jsonl")]
checks, na = [], []
ready = set(open("tools/ready.txt").read().split())
mods = {m.name for m in pkgutil.iter_modules(harness.__path__) if m.name.upper() in ready}
for pid in props:
    name = pid.lower()
    if name not in mods:
        na.append({"property_id": pid, "reason": "model, theorems and correspondence designed in DESIGN.md section 6 but not built yet; no check is claimed"})
        continue
    C = importlib.import_module(f"harness.{name}").CHECK
    if getattr(C, "NOT_CLAIMED", None):
        na.append({"property_id": pid, "reason": C.NOT_CLAIMED})
        continue
    checks.append({
        "property_id": pid,
        "quick_cmd": f"./check {pid} --tier quick",
        "thorough_cmd": f"./check {pid} --tier thorough",
        "evidence_file": f"/verif/evidence/{pid}.json",
        "replay_cmd_template": f"./check {pid} --replay {{path}}",
        "engine": "coq-proof+correspondence",
        "level_claimed": {"category": "proof", "text": C.LEVEL_TEXT, "design_ref": f"DESIGN.md section 6, {pid}"},
        "level_note": C.LEVEL_NOTE,
        "technique": C.TECHNIQUE,
    })
man = {
    "version": 1,
    "setup_cmd": "./setup.sh",
    "hooks": {"guard": "COREDIPPER_OPERON_VERIF", "enable": "none needed: no source hooks are installed; clocks, agents and callbacks are substituted from the harness by rebinding module attributes and constructor arguments",
              "baseline_off_cmd": "cd /repo && /venv/bin/python -m pytest -ra -q -p no:cacheprovider --timeout=900 --continue-on-collection-errors",
              "source_commits": [], "add_only": True},
    "engines": [{"name": "coq-proof+correspondence", "path": "coq/ harness/ translators/",
                 "serves_properties": [c["property_id"] for c in checks],
                 "kind_free_text": "Rocq/Coq 8.16.1 theorems about hand-written Gallina models (coq/Cxx/{Model,Proofs,Property,Examples}.v) and translator-generated definitions (coq/gen); models tied to /repo on every run by translators and by a correspondence check evaluating the model with vm_compute on the same cases the implementation ran"}],
    "checks": checks,
    "not_applicable": na,
    "notes": "Every check: translate -> make (full .vo) + Print Assumptions -> implementation vs. model on generated cases under vm_compute + property monitor on every implementation trace. fix: commits in /repo are listed in KNOWN_FINDINGS.json (fixed).",
}
json.dump(man, open("MANIFEST.json", "w"), indent=1)
print(len(checks), "checks;", len(na), "not claimed")
