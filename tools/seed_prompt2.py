import json, sys, subprocess, os, glob
pid = sys.argv[1]
p = [json.loads(l) for l in open('/verif/properties.jsonl') if json.loads(l)['id'] == pid][0]
rnd = __import__("os").environ.get("ROUND", "2")
wt = f"/tmp/seed{rnd}_{pid}"
out = f"/tmp/seedout{rnd}_{pid}"
os.makedirs(out, exist_ok=True)
subprocess.run(f"git -C /repo worktree remove --force {wt} 2>/dev/null; git -C /repo worktree add -q --detach {wt} HEAD", shell=True)
prev = []
for d in sorted(glob.glob(f"/verif/seeded/{pid}-*")):
    note = open(d + "/note.txt").read().strip().splitlines()
    prev.append("   - " + " ".join(note[:4])[:500])
extra = sys.argv[2] if len(sys.argv) > 2 else ""
txt = open('/verif/tools/seed_prompt.py').read()
base = subprocess.run(["/venv/bin/python", "/verif/tools/seed_prompt.py", pid], capture_output=True, text=True).stdout
# seed_prompt.py re-creates /tmp/seed_<pid>; we only reuse its text with the paths swapped
subprocess.run(f"git -C /repo worktree remove --force /tmp/seed_{pid} 2>/dev/null", shell=True)
base = base.replace(f"/tmp/seed_{pid}", wt).replace(f"/tmp/seedout_{pid}", out)
marker = "Your job: produce TWO different"
add = ("ROUND " + rnd + ". Earlier attempts of this kind already exist and were all detected; do NOT repeat them or close variants of them:\n"
       + "\n".join(prev) + "\n"
       "Aim for something SUBTLER than those: a violation that needs a longer or more unusual sequence, a boundary value, an interaction between two features, state carried across calls or across objects, an error path, or a rarely used configuration; prefer changes spread over two cooperating sites. "
       + extra + "\n\n")
print(base.replace(marker, add + marker))
