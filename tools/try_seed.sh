#!/bin/bash
# tools/try_seed.sh <PID> <patch.diff> <demo.py> [extra check ids...]
# Confirms a seeded change in a scratch worktree of /repo (suite passes, demo fails with / passes
# without), then runs the property's quick check against that worktree (VERIF_REPO), and removes it.
# (While other work is running against /repo the change is NOT applied to /repo itself; the final
# per-seed confirmation recorded in seeded/<id>/meta.json applies it to /repo and undoes it.)
set -u
PID=$1; PATCH=$2; DEMO=$3; shift 3
WT=/tmp/tryseed_$$
git -C /repo worktree add -q --detach $WT HEAD || exit 2
cd $WT
echo "== demo on clean tree"; PYTHONPATH=$WT /venv/bin/python $DEMO >/dev/null 2>&1; echo "exit=$?"
git apply $PATCH || { echo "patch does not apply"; git -C /repo worktree remove --force $WT; exit 2; }
echo "== suite with the change"; PYTHONPATH=$WT /venv/bin/python -m pytest -q -p no:cacheprovider --timeout=900 2>&1 | tail -1
echo "== demo with the change"; PYTHONPATH=$WT /venv/bin/python $DEMO 2>&1 | grep -v "^WARNING conda" | tail -3; echo "exit=${PIPESTATUS[0]}"
cd /verif
for c in $PID "$@"; do
  echo "== ./check $c against the changed tree"
  VERIF_REPO=$WT timeout 900 ./check $c 2>&1 | grep -E "^VIOLATION|^\[C|^KNOWN" | cut -c1-220
  for f in $(ls replays/${c}_*.json 2>/dev/null); do /venv/bin/python -c "
import json,sys
d=json.load(open('$f')); print('   replay:', d.get('signature'), '|', str(d.get('what'))[:300]); print('   case:', json.dumps(d.get('case'))[:400])"; done
done
git -C /repo worktree remove --force $WT
