"""tools/impl_coverage.py PID [tier]  - which lines/branches of the property's anchored source files are NEVER executed by the
implementation runs of the check (corpus + enumerated + generated cases + extra_checks)?  A diagnostic for blind spots
of the case generators; no Coq involved.  Writes coverage/<PID>.json and prints the uncovered lines with their text."""
import importlib, json, os, sys
sys.path.insert(0, "/verif")
pid = sys.argv[1]
tier = sys.argv[2] if len(sys.argv) > 2 else "quick"
os.environ.setdefault("VERIF_REPO", "/repo")
import coverage
from harness import common
prop = [json.loads(l) for l in open("/verif/properties.jsonl") if json.loads(l)["id"] == pid][0]
files = prop.get("anchors", {}).get("files") or prop.get("files") or []
if isinstance(prop.get("anchors"), dict):
    files = prop["anchors"].get("files", files)
paths = [str(common.REPO / f) for f in files]
cov = coverage.Coverage(include=paths, branch=True, data_file=None)
common.ensure_repo_on_path()
mod = importlib.import_module(f"harness.{pid.lower()}")
chk = mod.CHECK(tier, 0)
try:
    chk.translate()
except Exception as e:
    print("translate failed:", e)
n = chk.N_QUICK if tier == "quick" else chk.N_THOROUGH
cases = list(chk.corpus_cases()) + list(chk.exhaustive_cases()) + list(chk.gen_cases(chk.rng, n))
cov.start()
try:
    for c in cases:
        try:
            chk._safe_impl(c)
        except BaseException as e:  # noqa
            pass
    try:
        chk.extra_checks()
    except BaseException as e:  # noqa
        print("extra_checks raised", type(e).__name__, e)
finally:
    cov.stop()
out = {}
for p in paths:
    try:
        _, statements, excluded, missing, _ = cov.analysis2(p)
    except Exception as e:
        print("no data for", p, e); continue
    an = cov._analyze(p)
    arcs_missing = sorted(an.arcs_missing()) if hasattr(an, "arcs_missing") else []
    src = open(p).read().splitlines()
    # only lines inside function bodies count (module / class level statements ran at import time, before the
    # measurement started); printing is not behaviour
    import ast
    inside = set()
    for node in ast.walk(ast.parse(open(p).read())):
        if isinstance(node, (ast.FunctionDef, ast.AsyncFunctionDef)) and node.body:
            inside.update(range(node.body[0].lineno, node.end_lineno + 1))
    missing = [ln for ln in missing if ln in inside and not src[ln - 1].strip().startswith(("print(", "f\"", "\"", ")"))]
    arcs_missing = [(a, b) for a, b in arcs_missing if a in inside and a not in missing and b > 0 and b not in missing
                    and "self.silent" not in src[a - 1]]
    out[p] = {"statements": len(statements), "missing": missing, "branches_missing": arcs_missing}
    print(f"== {p}: {len(statements)} statements, {len(missing)} never executed, {len(arcs_missing)} branch arcs never taken")
    for ln in missing:
        print(f"   {ln:4d}  {src[ln-1].strip()[:110]}")
    for a, b in arcs_missing:
        print(f"   arc {a}->{b}:  {src[a-1].strip()[:90]}")
os.makedirs("/verif/coverage", exist_ok=True)
json.dump({"property": pid, "tier": tier, "cases": len(cases), "files": out}, open(f"/verif/coverage/{pid}.json", "w"), indent=1)
