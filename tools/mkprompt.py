import sys
pid=sys.argv[1]; extra=sys.argv[2] if len(sys.argv)>2 else ""
t=open('/verif/tools/agent_prompt.txt').read()
print(t.replace('{PID}',pid).replace('{pid}',pid.lower()).replace('{EXTRA}',extra))
