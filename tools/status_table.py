"""tools/status_table.py - prints the per-property status rows (theorems, model size, obligations of the last run) for DESIGN.md 0.2"""
import glob, json, re, subprocess
kf = json.load(open("/verif/KNOWN_FINDINGS.json"))
for p in [f"C{i:02d}" for i in range(1, 21)]:
    prop = open(f"/verif/coq/{p}/Property.v").read()
    thms = re.findall(r"^\s*(?:Theorem|Lemma|Corollary)\s+(\w+)", prop, flags=re.M)
    lines = sum(len(open(f).read().splitlines()) for f in glob.glob(f"/verif/coq/{p}/*.v"))
    gen = sorted(glob.glob(f"/verif/coq/gen/Gen_{p}*.v"))
    try:
        ev = json.load(open(f"/verif/evidence/{p}.json"))
        cases = ev.get("coverage", {}).get("cases_run") or ev.get("cases") or ""
    except Exception:
        cases = ""
    fixes = [f["commit"] for f in kf["fixed"] if f["property"] == p]
    known = [k["signature"] for k in kf["known"] if k["property"] == p]
    seeds = len(glob.glob(f"/verif/seeded/{p}-*"))
    print(f"| {p} | {len(thms)} | {lines/1000:.1f}k | {', '.join(g.split('/')[-1] for g in gen) or '-'} | {len(fixes)} | {', '.join(known) or '-'} | {seeds} |")
