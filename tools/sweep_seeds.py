"""tools/sweep_seeds.py [PID ...] [-j N]  - re-run every kept seed against its check (quick tier) in scratch worktrees
and print which are reported with a concrete input. Does not rewrite seeded/*/meta.json; writes seeded/SWEEP.json."""
import concurrent.futures, glob, json, os, re, subprocess, sys, time
args = sys.argv[1:]
jobs = 3
if "-j" in args:
    i = args.index("-j"); jobs = int(args[i + 1]); del args[i:i + 2]
pids = set(args)
seeds = sorted(d for d in glob.glob("/verif/seeded/C*-*") if os.path.isdir(d) and (not pids or os.path.basename(d).split("-")[0] in pids))

def sh(cmd, **kw):
    return subprocess.run(cmd, shell=True, capture_output=True, text=True, **kw)

def one(d):
    name = os.path.basename(d); pid = name.split("-")[0]
    wt = f"/tmp/sweep_{name}_{os.getpid()}"
    sh(f"git -C /repo worktree add -q --detach {wt} HEAD")
    try:
        r = sh(f"git -C {wt} apply --3way {d}/patch.diff")
        if r.returncode != 0:
            return name, {"error": "patch does not apply: " + r.stderr[-200:]}
        t0 = time.time()
        rep = f"/tmp/sweep_replays_{name}"
        r = sh(f"cd /verif && VERIF_REPO={wt} timeout 1500 ./check {pid}")
        line = next((l for l in r.stdout.splitlines() if l.startswith("VIOLATION")), "")
        sig = None
        m = re.search(r"replay=(\S+)", line)
        if m and os.path.exists("/verif/" + m.group(1)):
            try:
                sig = json.load(open("/verif/" + m.group(1))).get("signature")
            except Exception:
                pass
        return name, {"exit": r.returncode, "violation_line": line[:200], "signature": sig,
                      "with_input": bool(line) and not line.rstrip().endswith("no-failing-input-found"),
                      "wall_s": round(time.time() - t0, 1)}
    finally:
        sh(f"git -C /repo worktree remove --force {wt}")

out = {}
# seeds of one property share replays/<pid>_* files: run different properties in parallel, one property's seeds in sequence
by_pid = {}
for d in seeds:
    by_pid.setdefault(os.path.basename(d).split("-")[0], []).append(d)
def run_pid(ds):
    return [one(d) for d in ds]
with concurrent.futures.ThreadPoolExecutor(max_workers=jobs) as ex:
    for res in ex.map(run_pid, by_pid.values()):
        for name, r in res:
            out[name] = r
            print(name, r.get("signature"), "WITH-INPUT" if r.get("with_input") else ("obligation-only" if r.get("violation_line") else "MISSED"), r.get("wall_s"), r.get("error", ""), flush=True)
# a sweep of some properties keeps the recorded results of the others
try:
    prev = json.load(open("/verif/seeded/SWEEP.json")).get("results", {})
except Exception:
    prev = {}
prev.update(out)
json.dump({"head": sh("git -C /repo rev-parse --short HEAD").stdout.strip(), "results": prev}, open("/verif/seeded/SWEEP.json", "w"), indent=1, sort_keys=True)
n = len(out); w = sum(1 for r in out.values() if r.get("with_input")); o = sum(1 for r in out.values() if r.get("violation_line") and not r.get("with_input"))
print(f"TOTAL {n}: with input {w}, obligation only {o}, missed {n - w - o}")
