"""tools/strengthen_prompt.py PID name:status [name:status ...]   - prompt for a builder sub-agent that strengthens one check"""
import sys
pid = sys.argv[1]
items = [a.split(":") for a in sys.argv[2:]]
lst = "\n".join(f"  - /verif/seeded/{n}/ (patch.diff, demo.py, note.txt, meta.json): currently {'MISSED: ./check ' + pid + ' exits 0 against a tree with this change' if s == 'missed' else 'reported only as a broken obligation/correspondence with no failing input (the VIOLATION line ends in no-failing-input-found)'}" for n, s in items)
first = items[0][0]
print(f"""You are extending the machine-checked-proof verification check of property {pid} of the Python library coredipper/operon (/repo) that lives in /verif. Read first: /verif/BUILDING.md (conventions and hard rules), the line for {pid} in /verif/properties.jsonl (the property, fixed - never edit that file), /verif/DESIGN.md section 0 and the section-6 entry for {pid}, then /verif/coq/{pid}/*.v and /verif/harness/{pid.lower()}.py, and harness/common.py (the driver; read only).

Independently written breaking changes to /repo ("seeds": each compiles, keeps the 658-test suite green, and violates the property on some specific input/history) are kept under /verif/seeded/. For {pid} the new ones are:
{lst}

Your job: strengthen the {pid} check so that each of them is reported WITH A CONCRETE FAILING INPUT and a specific signature, by widening what the check explores and what the model covers - not by special-casing the seed's literal input:
 1. work out which class of behaviour the check does not exercise or observe (an operation missing from the history language, a configuration never varied, an input alphabet too narrow, state carried across calls/objects, an error path, an observation the monitor never looks at ...);
 2. add that class to the case generator / history language / monitor in harness/{pid.lower()}.py AND to the Coq model (Model.v: new operations / observations, `run_case` must agree with the real code on the unchanged tree), and where a new aspect of the property becomes expressible, state it at full strength in Property.v (closed by `exact` of a lemma proved in Proofs.v, unbounded: induction / invariant / refinement; `Print Assumptions` beneath) with a non-vacuity Example. No Admitted/admit/Axiom/Parameter/Conjecture, no Program Fixpoint/funelim, no native_compute; every coqc under shell `timeout`; never a bare `make` in /verif/coq (others are building there);
 3. the monitor is a transcription of the PROPERTY (as stated in properties.jsonl), never of the implementation; do not demand more than the property states. If you conclude a seed is genuinely outside what the property states and quantifies over, do not force it: explain exactly why in your report.

Acceptance (run these yourself and report the outcomes):
 a. unchanged tree: `cd /verif && timeout 900 ./check {pid}` exits 0, prints no VIOLATION line, quick tier stays within about 90 s; also run `timeout 3000 ./check {pid} --tier thorough` once at the end (must also exit 0 with no VIOLATION);
 b. each new seed: `cd /verif && tools/try_seed.sh {pid} seeded/{first}/patch.diff seeded/{first}/demo.py` (same for the other) prints a `VIOLATION property={pid} replay=...` line that does NOT end in no-failing-input-found, with a sensible signature and input shown under `replay:`/`case:`;
 c. every older seed of this property (seeded/{pid}-A ... ) is still caught the same way (run try_seed.sh for each);
 d. after any try_seed.sh run, finish with a plain `./check {pid}` on the unchanged tree (it regenerates coq/gen and evidence/{pid}.json from /repo itself).
try_seed.sh builds a scratch worktree under /tmp and removes it; it never touches /repo. Do NOT edit /repo, harness/common.py, check, MANIFEST.json, DESIGN.md, KNOWN_FINDINGS.json, properties.jsonl, tools/, or any other property's files; do not commit (I will). Do not use `git stash` anywhere.

If, while widening the check, the UNCHANGED code itself turns out to violate the property on some input (a genuine defect), do not hide or loosen anything: keep the check reporting it and tell me the exact input/history in your final report (I decide about a repair). If instead the alarm is a mistake of the model/monitor, fix the model/monitor.

Every shell call prints a harmless 'WARNING conda...' line; ignore it. Interpreter: /venv/bin/python (./check uses it). No network. Final report (short): what class of behaviour was missing, what you changed (files, new operations/observations), names of theorems added or changed, outcome of a-d for every seed, quick-tier wall time.""")
