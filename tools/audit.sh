#!/bin/bash
# Independent re-check of the compiled development with coqchk, listing the axioms it relies on.
# Usage: tools/audit.sh [Cxx ...]   (default: every property). Needs ./setup.sh to have built the .vo files.
cd "$(dirname "$0")/../coq"
props="$@"; [ -z "$props" ] && props=$(ls -d C[0-9][0-9] | tr '\n' ' ')
for p in $props; do
  [ -f $p/Property.vo ] || { echo "$p: not built"; continue; }
  echo "=== $p"
  timeout 1500 coqchk -silent -o -Q . Verif Verif.$p.Property 2>&1 | tail -25
done
